# -*- coding: utf-8 -*-
"""Expression evaluation of the abstract interpreter."""

import ast

from . import externals as X
from .model import AnalysisError
from .values import EMPTY, NOCONST, Guard, Obj, Val, join, join_all
from .interp import Frame, CONTAINER_CLS


class ExprMixin:

    # ------------------------------------------------------------------------------------------ helpers
    @property
    def frame(self) -> Frame:
        return self.frames[-1]

    @property
    def module(self):
        return self.frame.fn.module

    def fresh_region(self):
        return getattr(self, "_force_region", None) or "fresh"

    def new_container(self, cls, node, elem=None, keys=None, label=None) -> Obj:
        o = self.alloc(cls, self.fresh_region(), node, label=label or getattr(self, "_force_label", None))
        o.elem = elem
        o.keys = keys
        if elem is not None:
            self.adopt(o.oid, "[*]", elem)
        return o

    def truthy(self, v: Val):
        if v.has_const:
            if isinstance(v.const, tuple):
                return True
            try:
                return bool(v.const)
            except Exception:
                return None
        if "truthy" in v.tags:
            return True
        if v.refs and not v.locs and not (v.tags & {"maybe-unset", "maybe-unbound", "maybe-none"}):
            res = set()
            for r in v.refs:
                o = self.obj(r)
                pc = self.prog.classes.get(o.cls) if o.cls else None
                if pc is None:
                    return None
                if pc.resolve("__bool__") or pc.resolve("__len__"):
                    return None
                if pc.is_namedtuple:
                    res.add(len(pc.field_order) > 0)
                else:
                    res.add(True)
            if len(res) == 1:
                return res.pop()
        if v.callee and not v.aliases() and "maybe-none" not in v.tags and all(c[0] in ("class", "func", "bound", "lambda", "partial")
                                                 for c in v.callee):
            return True
        return None


    # ------------------------------------------------------------------------------------------ eval
    def eval(self, node) -> Val:
        m = getattr(self, "e_" + type(node).__name__, None)
        if m is None:
            raise AnalysisError("unsupported expression %s at %s" % (type(node).__name__,
                                                                     self.prog.loc(self.frame.fn, node)))
        return m(node)

    def e_Constant(self, node):
        return Val(const=node.value)

    def e_JoinedStr(self, node):
        return Val(deps=join_all([self.eval(v) for v in node.values]).deps, tags=["str"])

    def e_FormattedValue(self, node):
        return Val(deps=self.eval(node.value).deps)

    def e_Name(self, node):
        name = node.id
        env = self.frame.env
        if name in env:
            return env[name]
        fn = self.frame.fn
        mod = fn.module
        # enclosing class scope for nested classes (e.g. LearningPolicy.EpsilonGreedy referring to siblings)
        c = self.prog.lookup_class(mod, name, fn.cls if fn.cls is not None else self.frame.recv_cls)
        if c is not None:
            return Val(callee=[("class", c)], const=("class", c.name))
        f = self.prog.lookup_function(mod, name)
        if f is not None:
            return Val(callee=[("func", f)])
        gm, gexpr = self.prog.lookup_global(mod, name)
        if gexpr is not None:
            k = ("<module %s>" % gm.name, name)
            if k not in self.class_attr_objs:
                saved = (self.out, self.guards, self.loops, self.callstack)
                self.out, self.guards, self.loops, self.callstack = [], (), (), ()
                try:
                    self.class_attr_objs[k] = self.eval_in_module(gexpr, gm, "global", "%s.%s" % (gm.name, name))
                finally:
                    self.out, self.guards, self.loops, self.callstack = saved
            return self.class_attr_objs[k].add_tags("global:" + name)
        q = self.prog.external_name(mod, name)
        if q is not None:
            return Val(callee=[("ext", q)], tags=["module:" + q])
        if name in X.BUILTINS:
            return Val(callee=[("builtin", name)])
        if name in ("True", "False", "None"):
            return Val(const={"True": True, "False": False, "None": None}[name])
        if name in ("__name__", "__file__", "NotImplemented", "Ellipsis"):
            return Val()
        raise AnalysisError("unbound name %s at %s" % (name, self.prog.loc(fn, node)))

    def e_Attribute(self, node):
        base = self.eval(node.value)
        name = node.attr
        # module / class attribute chains
        if base.callee and not base.refs and not base.locs:
            outs = []
            for c in base.callee:
                if c[0] == "ext":
                    q = c[1] + "." + name
                    if q in ("numpy.nan", "math.nan", "numpy.NaN"):
                        outs.append(Val(const=("nan",), tags=["nan"]))
                    elif q in ("numpy.inf", "math.inf"):
                        outs.append(Val(const=("inf",)))
                    elif q == "numpy.newaxis":
                        outs.append(Val(const=None))
                    else:
                        outs.append(Val(callee=[("ext", q)], tags=["module:" + q]))
                elif c[0] == "class":
                    ci = c[1]
                    if name in ci.inner:
                        outs.append(Val(callee=[("class", ci.inner[name])], const=("class", ci.inner[name].name)))
                        continue
                    f = ci.resolve(name)
                    if f is not None:
                        outs.append(Val(callee=[("func", f)], tags=["via-class"]))
                        continue
                    owner, expr = ci.class_attr(name)
                    if expr is not None:
                        outs.append(self.class_attr_val(owner, name, expr))
                        continue
                    outs.append(Val(tags=["class-attr:" + name]))
                elif c[0] == "super":
                    _, defining, recv_val, recv_cls = c
                    f = recv_cls.resolve_after(defining, name)
                    if f is not None:
                        outs.append(Val(callee=[("bound", f, recv_val, recv_cls)]))
                    else:
                        outs.append(Val(callee=[("extmeth", recv_val, name, "super")]))
                elif c[0] == "builtin":
                    outs.append(Val(callee=[("ext", c[1] + "." + name)]))
                else:
                    outs.append(Val(deps=base.deps))
            return join_all(outs)
        # receiver objects
        meths = []
        data = False
        for oid in base.refs:
            o = self.obj(oid)
            pc = self.prog.classes.get(o.cls) if o.cls else None
            if pc is not None:
                f = pc.resolve(name)
                if f is not None and name not in o.fields:
                    rv = base.with_(refs=frozenset([oid]), locs=frozenset(), extra=None, callee=())
                    if f.is_property:
                        meths.append(("prop", f, rv, pc))
                    else:
                        meths.append(("bound", f, rv, pc))
                    continue
            data = True
        if base.locs:
            data = True
        if name in ("dtype", "shape", "size", "ndim", "flags"):
            from .interp_call import strip_obs
            base = base.with_(deps=strip_obs(base.deps))
        if not base.refs and not base.locs:
            # attribute of a non-aliasing value (numpy scalar/array result): .size .shape .T .flags ...
            return Val(deps=base.deps, tags=base.tags | {"attr:" + name}, callee=[("extmeth", base, name, "val")])
        out = None
        if data:
            dbase = base
            if meths:
                dbase = base.with_(refs=frozenset(r for r in base.refs
                                                  if not (self.obj(r).cls in self.prog.classes and
                                                          self.prog.classes[self.obj(r).cls].resolve(name)
                                                          and name not in self.obj(r).fields)))
            out = self.read_field(dbase, name, node)
            # calling a data attribute of an unknown / external object = external method
            out = out.with_(callee=out.callee + (("extmeth", dbase, name, "obj"),))
        for mdesc in meths:
            if mdesc[0] == "prop":
                out = join(out, self.call_function(mdesc[1], mdesc[2], mdesc[3], [], {}, node))
            else:
                out = join(out, Val(callee=[mdesc]))
        return out

    def e_Subscript(self, node):
        base = self.eval(node.value)
        sl = node.slice
        if isinstance(sl, ast.Slice):
            deps = set()
            for part in (sl.lower, sl.upper, sl.step):
                if part is not None:
                    deps |= self.eval(part).deps
            # basic slice: a view of the same storage
            v = base.add_deps(deps).add_tags("slice")
            if base.extra is not None:
                v = v.with_(extra=None)
            return v
        if isinstance(sl, ast.Tuple) and any(isinstance(e, ast.Slice) or
                                             (isinstance(e, ast.Attribute) and e.attr == "newaxis")
                                             for e in sl.elts):
            deps = set()
            fancy = False
            for e in sl.elts:
                if isinstance(e, ast.Slice):
                    for part in (e.lower, e.upper, e.step):
                        if part is not None:
                            deps |= self.eval(part).deps
                else:
                    kv = self.eval(e)
                    deps |= kv.deps
            return base.add_deps(deps).add_tags("slice")
        key = self.eval(sl)
        if "sliceobj" in key.tags:
            # x[slice(a, b)] is x[a:b]: a view of the same storage
            v = base.add_deps(key.deps).add_tags("slice")
            return v.with_(extra=None) if base.extra is not None else v
        if base.extra is not None and base.extra[0] == "tuple" and key.has_const and isinstance(key.const, int):
            items = base.extra[1]
            if -len(items) <= key.const < len(items):
                return items[key.const].add_deps(base.deps)
        # indexing with a mask, an index array or a python list of positions copies (numpy advanced indexing)
        fancy = bool(key.tags & {"mask", "indexarr"}) or any(
            self.obj(r).cls in ("list", "tuple") for r in key.refs if r in self.heap.objs) and not any(
            self.obj(r).cls in ("dict",) for r in base.refs if r in self.heap.objs)
        # typing generics such as Optional[List] evaluate to nothing interesting
        if base.callee and not base.aliases():
            return Val(deps=base.deps | key.deps, callee=base.callee)
        v = self.read_elem(base, key, node, fancy=fancy)
        if not base.aliases():
            v = Val(deps=base.deps | key.deps, tags=base.tags & {"indexarr", "mask", "labels"})
        return v

    def e_Starred(self, node):
        return self.eval(node.value)

    def e_UnaryOp(self, node):
        v = self.eval(node.operand)
        if isinstance(node.op, ast.Not) and self.truthy(v) is not None:
            return Val(const=not self.truthy(v), deps=v.deps)
        if isinstance(node.op, ast.USub) and v.has_const and isinstance(v.const, (int, float)):
            return Val(const=-v.const, deps=v.deps)
        tags = v.tags & {"mask"} if isinstance(node.op, ast.Invert) else frozenset()
        return Val(deps=v.deps, tags=tags)

    def _labelish(self, v: Val) -> bool:
        return "label" in v.tags or "labels" in v.tags

    def e_BinOp(self, node):
        l = self.eval(node.left)
        r = self.eval(node.right)
        if (self._labelish(l) or self._labelish(r)) and not any(
                self.obj(o).cls in ("list", "tuple") for o in l.refs | r.refs) and not (
                l.has_const and isinstance(l.const, str)) and not (r.has_const and isinstance(r.const, str)):
            self.emit("labelop", node, op="arithmetic:" + type(node.op).__name__, vals=[l, r])
        if l.has_const and r.has_const:
            try:
                c = _binop(node.op, l.const, r.const)
                return Val(const=c, deps=l.deps | r.deps)
            except Exception:
                pass
        tags = set()
        if isinstance(node.op, ast.Add):
            # list concatenation: fresh list whose elements alias both operands' elements
            if any(self.obj(o).cls == "list" for o in l.refs | r.refs):
                elems = [self.read_elem(l), self.read_elem(r)]
                o = self.new_container("list", node, elem=join_all(elems))
                return Val(refs=[o.oid], deps=l.deps | r.deps)
        if isinstance(node.op, (ast.BitAnd, ast.BitOr, ast.BitXor, ast.Sub)) and (l.refs or r.refs) and (
                all(self.obj(o).cls == "set" for o in l.refs | r.refs) or "keys" in (l.tags | r.tags) and all(
                    self.obj(o).cls in ("set", "list", "tuple") for o in l.refs | r.refs)):
            # (a dictionary keys view combined with & | - ^ gives a plain set as well)
            # set algebra: a fresh set whose elements come from the operands
            elems = [self.read_elem(x) for x in (l, r) if x.refs]
            o = self.new_container("set", node, elem=join_all(elems))
            return Val(refs=[o.oid], deps=l.deps | r.deps)
        if isinstance(node.op, ast.Mult):
            for side in (l, r):
                if side.refs and all(self.obj(o).cls == "list" for o in side.refs):
                    o = self.new_container("list", node, elem=self.read_elem(side))
                    return Val(refs=[o.oid], deps=l.deps | r.deps)
        if (l.tags | r.tags) & {"indexarr"}:
            tags.add("indexarr")
        if (l.tags | r.tags) & {"mask"} and isinstance(node.op, (ast.BitAnd, ast.BitOr, ast.BitXor)):
            tags.add("mask")
        return Val(deps=l.deps | r.deps, tags=tags)

    def e_BoolOp(self, node):
        vals = []
        saved_narrow = dict(self.narrow)
        for i, e in enumerate(node.values):
            v = self.eval(e)
            vals.append(v)
            if isinstance(node.op, ast.And):
                self.apply_narrowing(e, True)
                if self.truthy(v) is False:
                    break
            else:
                if self.truthy(v) is True:
                    break
        self.narrow = saved_narrow
        deps = frozenset().union(*[v.deps for v in vals])
        if isinstance(node.op, ast.And):
            if any(self.truthy(v) is False for v in vals):
                return Val(const=False, deps=deps)
            if all(self.truthy(v) is True for v in vals):
                return vals[-1].add_deps(deps)
        else:
            if any(self.truthy(v) is True for v in vals):
                return Val(const=True, deps=deps)
            if all(self.truthy(v) is False for v in vals):
                return vals[-1].add_deps(deps)
        out = join_all(vals)
        return out.with_(const=NOCONST).add_deps(deps)

    def e_Compare(self, node):
        l = self.eval(node.left)
        vals = [l] + [self.eval(c) for c in node.comparators]
        deps = frozenset().union(*[v.deps for v in vals])
        if len(node.ops) == 1:
            op, r = node.ops[0], vals[1]
            if isinstance(op, (ast.In, ast.NotIn)) and len(r.refs) == 1 and not r.locs:
                from .interp_call import value_key
                k = value_key(l)
                if k is not None and k in self.obj(next(iter(r.refs))).notin:
                    # the value was just removed from this list of distinct values
                    return Val(const=isinstance(op, ast.NotIn), deps=deps)
            if isinstance(op, (ast.Is, ast.IsNot)) and r.has_const and r.const is None:
                known = None
                if l.has_const:
                    known = l.const is None
                elif (l.refs or l.callee or l.locs) and not (l.tags & {"maybe-unset", "maybe-unbound",
                                                                                 "maybe-none"}) and \
                        all(isinstance(x, tuple) and len(x) == 2 and x[1] and x[1][-1] == ".values" for x in l.locs):
                    known = False           # objects, and the .values array of a pandas object, are not None
                if known is not None:
                    return Val(const=known if isinstance(op, ast.Is) else not known, deps=deps)
            if l.has_const and r.has_const and isinstance(op, (ast.Eq, ast.NotEq, ast.Lt, ast.LtE, ast.Gt, ast.GtE)):
                try:
                    c = {ast.Eq: lambda a, b: a == b, ast.NotEq: lambda a, b: a != b, ast.Lt: lambda a, b: a < b,
                         ast.LtE: lambda a, b: a <= b, ast.Gt: lambda a, b: a > b,
                         ast.GtE: lambda a, b: a >= b}[type(op)](l.const, r.const)
                    return Val(const=bool(c), deps=deps)
                except Exception:
                    pass
        tags = {"mask"} if all(isinstance(o, (ast.Eq, ast.NotEq, ast.Lt, ast.LtE, ast.Gt, ast.GtE))
                               for o in node.ops) else set()
        if any(isinstance(o, (ast.Lt, ast.LtE, ast.Gt, ast.GtE)) for o in node.ops) and any(
                self._labelish(v) for v in vals):
            self.emit("labelop", node, op="order-comparison", vals=vals)
        return Val(deps=deps, tags=tags)

    def e_IfExp(self, node):
        t = self.eval(node.test)
        if self.truthy(t) is not None:
            return self.eval(node.body if self.truthy(t) else node.orelse).add_deps(t.deps)
        a = self.eval(node.body)
        b = self.eval(node.orelse)
        return join(a, b).add_deps(t.deps)

    def e_Lambda(self, node):
        return Val(tags=["lambda"], callee=[("lambda", node, self.frame)])

    def e_Tuple(self, node):
        vals = [self.eval(e) for e in node.elts]
        o = self.new_container("tuple", node, elem=join_all(vals) if vals else None)
        deps = frozenset().union(*[v.deps for v in vals]) if vals else frozenset()
        return Val(refs=[o.oid], deps=deps, extra=("tuple", vals))

    def e_List(self, node):
        vals = [self.eval(e) for e in node.elts]
        o = self.new_container("list", node, elem=join_all(vals) if vals else None)
        deps = frozenset().union(*[v.deps for v in vals]) if vals else frozenset()
        return Val(refs=[o.oid], deps=deps, tags=["display"])

    def e_Set(self, node):
        vals = [self.eval(e) for e in node.elts]
        o = self.new_container("set", node, elem=join_all(vals) if vals else None)
        deps = frozenset().union(*[v.deps for v in vals]) if vals else frozenset()
        return Val(refs=[o.oid], deps=deps, tags=["display"])

    def e_Dict(self, node):
        keys, vals = [], []
        dk = {}
        exact = True
        for k, v in zip(node.keys, node.values):
            vv = self.eval(v)
            vals.append(vv)
            if k is None:
                exact = False
                continue
            kv = self.eval(k)
            keys.append(kv)
            if kv.has_const:
                dk[kv.const] = vv
            else:
                exact = False
        o = self.new_container("dict", node, elem=join_all(vals) if vals else None,
                               keys=join_all(keys) if keys else None)
        o.dictkeys = dk if exact else None
        o.mustkeys = dict(dk)
        deps = frozenset().union(*[v.deps for v in vals + keys]) if vals or keys else frozenset()
        return Val(refs=[o.oid], deps=deps, tags=["display"])

    # ------------------------------------------------------------------------------------------ comprehensions
    def _comprehension(self, node, elts, cls):
        saved_env = dict(self.frame.env)
        lid = self._new_loop_id()
        deps = set()
        iters = []
        saved_loops = self.loops
        saved_guards = self.guards
        saved_out = self.out
        ev = self.emit("for", node, head=[], body=[], target=node.generators[0].target, iter=None,
                       iter_node=node.generators[0].iter, loop_id=lid, parallel=None, comp=True)
        first = True
        for gen in node.generators:
            self.out = ev.a["head"] if first else ev.a["body"]
            it = self.eval(gen.iter)
            if first:
                ev.a["iter"] = it
                self.loop_iters[lid] = it
            first = False
            self.out = ev.a["body"]
            iters.append((gen, it))
            from .interp_call import keys_deps, strip_obs
            if it.refs and not it.locs and all(self.obj(r).cls == "dict" for r in it.refs):
                # walking a dictionary walks its keys: the result depends on the key set, not on the stored values
                deps |= keys_deps(strip_obs(it.deps))
            else:
                deps |= strip_obs(it.deps)     # the iterable fixes the length; element data flows through the elt
            self.loops = self.loops + ((lid, 1),)
            self.bind_loop_target(gen.target, it, gen.iter)
            for cond in gen.ifs:
                cv = self.eval(cond)
                deps |= cv.deps
                self.guards = self.guards + (Guard(cond, True, cv, self.frame.fn),)
        self.out = ev.a["body"]
        vals = [self.eval(e) for e in elts]
        self.out = saved_out
        self.loops = saved_loops
        self.guards = saved_guards
        self.frame.env = saved_env
        return vals, deps, iters

    def e_ListComp(self, node):
        vals, deps, iters = self._comprehension(node, [node.elt], "list")
        o = self.new_container("list", node, elem=vals[0])
        return Val(refs=[o.oid], deps=deps | vals[0].deps, tags=["comprehension"],
                   extra=("comp", iters[0][1], node))

    def e_SetComp(self, node):
        vals, deps, iters = self._comprehension(node, [node.elt], "set")
        o = self.new_container("set", node, elem=vals[0])
        return Val(refs=[o.oid], deps=deps | vals[0].deps, tags=["comprehension"])

    def e_GeneratorExp(self, node):
        vals, deps, iters = self._comprehension(node, [node.elt], "list")
        o = self.new_container("list", node, elem=vals[0])
        return Val(refs=[o.oid], deps=deps | vals[0].deps, tags=["comprehension", "generator"],
                   extra=("comp", iters[0][1], node))

    def e_DictComp(self, node):
        vals, deps, iters = self._comprehension(node, [node.key, node.value], "dict")
        o = self.new_container("dict", node, elem=vals[1], keys=vals[0])
        return Val(refs=[o.oid], deps=deps | vals[0].deps | vals[1].deps, tags=["comprehension"],
                   extra=("comp", iters[0][1], node))

    def e_Call(self, node):
        return self.eval_call(node)

    def e_NamedExpr(self, node):
        v = self.eval(node.value)
        self.frame.env[node.target.id] = v
        return v

    def e_Slice(self, node):
        deps = set()
        for part in (node.lower, node.upper, node.step):
            if part is not None:
                deps |= self.eval(part).deps
        return Val(deps=deps, tags=["sliceobj"])

    # ------------------------------------------------------------------------------------------ narrowing
    def apply_narrowing(self, test, polarity):
        """isinstance(<obj>.<field>, Cls) narrows the classes behind that exact location for the branch."""
        if isinstance(test, ast.UnaryOp) and isinstance(test.op, ast.Not):
            return self.apply_narrowing(test.operand, not polarity)
        if isinstance(test, ast.BoolOp) and isinstance(test.op, ast.And) and polarity:
            for e in test.values:
                self.apply_narrowing(e, True)
            return
        if not (isinstance(test, ast.Call) and isinstance(test.func, ast.Name) and test.func.id == "isinstance"
                and len(test.args) == 2):
            return
        target, clsexpr = test.args
        # built-in container classes: isinstance(x, dict) keeps the dict objects behind x (and drops them otherwise)
        bnames = None
        if isinstance(clsexpr, ast.Name) and clsexpr.id in ("dict", "list", "tuple", "set"):
            bnames = {clsexpr.id}
        elif isinstance(clsexpr, ast.Tuple) and clsexpr.elts and all(
                isinstance(x, ast.Name) and x.id in ("dict", "list", "tuple", "set") for x in clsexpr.elts):
            bnames = {x.id for x in clsexpr.elts}
        if bnames is not None:
            if isinstance(target, ast.Name) and target.id in self.frame.env:
                cur = self.frame.env[target.id]
                keep = set()
                for r in cur.refs:
                    oc = self.obj(r).cls
                    if oc not in ("dict", "list", "tuple", "set") or (oc in bnames) == polarity:
                        keep.add(r)
                if keep != set(cur.refs) and (keep or cur.locs):
                    self.frame.env[target.id] = cur.with_(refs=frozenset(keep))
            return
        quiet_out, self.out = self.out, []
        try:
            cv = self.eval(clsexpr)
            classes = self._classes_of(cv)
            if classes is None:
                return
            if isinstance(target, ast.Attribute):
                base = self.eval(target.value)
                if len(base.refs) != 1 or base.locs:
                    return
                oid = next(iter(base.refs))
                cur = self.read_field(base, target.attr, quiet=True)
                names = set()
                for r in cur.refs:
                    oc = self.prog.classes.get(self.obj(r).cls)
                    if oc is None:
                        continue
                    isin = any(c in oc.mro for c in classes)
                    if isin == polarity:
                        names.add(oc.name)
                if names:
                    self.narrow[(oid, target.attr)] = names
            elif isinstance(target, ast.Name) and target.id in self.frame.env:
                cur = self.frame.env[target.id]
                keep = set()
                for r in cur.refs:
                    oc = self.prog.classes.get(self.obj(r).cls)
                    if oc is None:
                        keep.add(r)
                        continue
                    if any(c in oc.mro for c in classes) == polarity:
                        keep.add(r)
                if keep and keep != set(cur.refs):
                    self.frame.env[target.id] = cur.with_(refs=frozenset(keep))
        finally:
            self.out = quiet_out

    def _classes_of(self, cv: Val):
        out = []
        if cv.extra is not None and cv.extra[0] == "tuple":
            for x in cv.extra[1]:
                sub = self._classes_of(x)
                if sub is None:
                    return None
                out.extend(sub)
            return out
        for c in cv.callee:
            if c[0] == "class":
                out.append(c[1])
            else:
                return None
        return out or None

    def static_isinstance(self, v: Val, classes):
        """True/False when decidable from exact abstract types, else None."""
        if not v.refs or v.locs or "maybe-unset" in v.tags:
            if v.has_const and v.const is None:
                return False
            return None
        res = set()
        for r in v.refs:
            oc = self.prog.classes.get(self.obj(r).cls)
            if oc is None:
                return None
            res.add(any(c in oc.mro for c in classes))
        return res.pop() if len(res) == 1 else None


def _binop(op, a, b):
    if isinstance(a, tuple) or isinstance(b, tuple):
        raise ValueError
    if isinstance(op, ast.Add):
        return a + b
    if isinstance(op, ast.Sub):
        return a - b
    if isinstance(op, ast.Mult):
        return a * b
    if isinstance(op, ast.Pow) and abs(b) < 64:
        return a ** b
    if isinstance(op, ast.FloorDiv):
        return a // b
    if isinstance(op, ast.Mod) and not isinstance(a, str):
        return a % b
    raise ValueError
