#!/venv/bin/python
"""Regenerates /verif/MANIFEST.json from the claims table below (kept next to the rules so that they stay in sync)."""
import json
import os

HERE = os.path.dirname(os.path.dirname(os.path.abspath(__file__)))

CLAIMS = {
    "C02": dict(
        text="Static shape analysis and def-use rules for the ridge kernels: a symbolic-shape interpreter runs "
             "predict of the three regression classes, fit/init and the vectorised prediction over contexts and "
             "arms for all four classes (one feature | several) x (one query row | several) and rejects shape "
             "incompatibility, two-sided broadcasts (accidental outer products) and results other than (m,) / "
             "(m, k); init is interpreted in a scaled-identity domain (A = lambda*I, A_inv = I/lambda, X'y = 0, "
             "beta = 0); fit updates A and X'y in accumulate form and derives A_inv, beta from them in def-use "
             "order; writers and documented reads of the model fields; joint row selection. A may-alias analysis of "
             "the query parameter (views, helper methods, scalers built with copy=False) shows that no model's "
             "predict modifies the matrix that is handed to every arm in turn. Decides shape "
             "correctness for every (d, m) and the never-observed-arm model, not numerical agreement with an "
             "oracle. Found and guards the repaired LinTS d=1/m>1 broadcast; A_inv = A.copy() is a known finding.",
        note="Trusted: numpy broadcasting/dot/squeeze rules as encoded in mabstat/rules/shapes.py; scale=True "
             "path preserves shapes. Not decided: agreement with linalg.solve as numbers, conditioning, the "
             "LinTS distribution.",
        technique="abstract interpretation over symbolic array shapes (case split on d=1/>1, m=1/>1) and over a "
                  "scaled-identity domain; AST def-use rules",
        ref="DESIGN.md section 3, C02"),
    "C19": dict(
        text="Static check that the bandit's object graph is plain data: no field store (AST over all classes of "
             "the graph, and values on the abstract traces of all 55 configurations) holds a lambda, generator "
             "object, joblib pool, lock, thread or handle; every defaultdict factory is a module-level callable or "
             "a partial of one with constant arguments; no class of the graph customises copying/pickling or "
             "declares __slots__; no store reaches a module-global or class-level object and no id() is used, so "
             "no state lives outside the graph. Decides that nothing in the graph can fail to round-trip or alias "
             "state outside it; exact round-trip of numpy generators / sklearn estimators / partial is trusted.",
        note="Trusted: numpy Generator, sklearn estimators, functools.partial, defaultdict pickle and deepcopy "
             "exactly; binarizers are picklable module-level functions (the property's restriction); cross-version "
             "pickles not decided.",
        technique="AST rule set over field stores and class definitions + ownership (GLOBAL region) facts from "
                  "abstract-interpretation traces",
        ref="DESIGN.md section 3, C19"),
    "C20": dict(
        text="Static parametricity (label opacity) by taint tracking in the abstract interpreter: arm labels are "
             "tagged at their sources and the tag flows through copies, constructors, np.unique/np.array/tolist, "
             "iteration and key selection; on the traces of MAB.__init__ and of all public entry points of all 55 "
             "configurations a label is only compared for equality, used as key/subscript, tested for membership, "
             "stored, zipped or passed on - any ordering comparison, arithmetic, sorted/min/max/sort/argsort "
             "without a value-mapping key=, hash or set iteration over labels is a violation; joint indexing of "
             "decisions/rewards/contexts by one selector and pairing of (decision, reward) in the binarizer. "
             "Decides that outputs depend on labels only through equality (renaming arms renames outputs). The "
             "row-order and reward shift/scale laws are algebra over run-time numbers and are NOT decided.",
        note="Trusted: numpy elementwise == on label arrays is label equality; externals table for label flow. "
             "Not decided: invariance of floating-point sums to row order, reward shift/scale laws.",
        technique="taint (label) tracking in the abstract interpreter with operation events + AST selector rules",
        ref="DESIGN.md section 3, C20"),
    "C11": dict(
        text="Static writer/reader agreement for the LSH tables: writer and reader hash with the same function, the "
             "same table_to_plane[k] and the same bucket table over the same key set; on the abstract traces of "
             "all LSH configurations the planes are written only by _initialize, which is called only from fit, "
             "drawn from the bandit generator with shape (columns, n_dimensions); index offset of partial_fit rows "
             "read before the append, passed and applied; candidates united over tables and de-duplicated, empty "
             "set -> empty-neighbourhood path; contexts enter the hash only through the sign of np.dot(contexts, "
             "plane) compared with zero (scale invariance). Decides the collision-set structure, not numerical "
             "injectivity of the hash code.",
        note="Trusted: sign of np.dot is scale invariant for positive factors; float64 exactness of the hash code "
             "for the n_dimensions in use; stale entries are C07's obligation.",
        technique="writer/reader sibling agreement (AST after local inlining) + who-writes / who-calls facts from "
                  "abstract-interpretation traces + taint of the hash function's parameter",
        ref="DESIGN.md section 3, C11"),
    "C12": dict(
        text="Static writer/reader agreement of the cell key: Clusters trains lp_list[c] on the rows whose "
             "labels_ (of the estimator fitted on the stored contexts in the same call) equal c, with one selector "
             "for decisions/rewards/contexts, and routes a query by kmeans.predict(contexts)[index] of the same "
             "estimator to the same list position; the estimator is fitted only by _fit_operation (traces). "
             "TreeBandit files rewards under [arm][leaf] with leaf ids from the arm's own tree and one arm mask, "
             "fits a tree only while its store is empty, and the reader looks up [arm][apply(row)] of the same "
             "tree and trains the leaf policy on exactly that array; unobserved arms keep the neutral 0.",
        note="Trusted: KMeans.labels_/predict and DecisionTreeRegressor.apply semantics; numbers are not decided.",
        technique="writer/reader agreement by AST comparison after local inlining + who-writes facts from "
                  "abstract-interpretation traces",
        ref="DESIGN.md section 3, C12"),
    "C13": dict(
        text="Static key-discipline and completeness analysis of warm start: each _copy_arms store is keyed by the "
             "cold arm, reads the warm arm and deep-copies; the copied or re-derived fields equal the policy's "
             "per-arm learned state (accumulator/derived classification computed from the traces, minus value-dead "
             "fields); the mapping iterates cold_arms, takes candidates from trained_arms only, chooses the argmin "
             "and applies the inclusive threshold; cold/trained definitions, compute-then-copy-then-mark order, "
             "warm flag cleared only by a non-partial fit; on the traces every store of warm_start is keyed by the "
             "cold arm or is a whole-dictionary re-derivation. Decides which arms can change and what they "
             "receive; distances and quantiles as numbers are not decided.",
        note="Trusted: np.quantile monotone in q; cosine distance symmetry; externals table.",
        technique="AST key-discipline rules + completeness of effect summaries against the accumulator/derived "
                  "classification from abstract-interpretation traces",
        ref="DESIGN.md section 3, C13"),
    "C09": dict(
        text="Static non-interference analysis of the is_predict flag: the six context-free predict methods are "
             "argmax o predict_expectations and utils.argmax is the first-maximum idiom; on the abstract traces of "
             "all 55 configurations predict and predict_expectations consume the random stream identically (apart "
             "from the two documented exceptions), the returned arm is produced by max(d, key=d.get) over a "
             "label-keyed dictionary or by np.argmax(E, axis=1) over the unmodified expectation matrix whose "
             "columns follow the arm list, and no min/argmin/sort/reverse is applied to arms or expectations on a "
             "prediction path; listed projection pairs on is_predict are recognised. Decides that predict is the "
             "first-maximum projection of the expectations predict_expectations returns from the same state.",
        note="Trusted: max(d, key=d.get) and numpy.argmax return the first maximum; dict order; NaN behaviour of "
             "argmax (exception rows) not decided.",
        technique="dependence/non-interference check by comparing abstract-interpretation traces of the two entry "
                  "points + provenance of the selecting maximum + AST idiom rules",
        ref="DESIGN.md section 3, C09"),
    "C03": dict(
        text="Static structural rules on the neighbour selection plus ownership facts from the abstract traces: "
             "inclusive radius comparison; argpartition pivot k-1 and slice k; cdist operands (all stored "
             "contexts, the row as 1 x d, the configured metric) flattened; history replaced by fit and appended "
             "old-then-new by partial_fit, written by nobody else; the per-row policy is a fresh copy trained with "
             "fit on decisions/rewards/contexts under one selector; on the empty-neighbourhood path every arm's "
             "expectation is NaN on every path (constructor, add_arm, never written by training), the guard is an "
             "emptiness test of the selection and predict draws choice(len(arms), p=...) from the row generator. "
             "Decides neighbourhood membership structure, not distances as numbers. Found and guards the repaired "
             "add_arm 0-instead-of-NaN defect.",
        note="Trusted: cdist / argpartition / where semantics; numpy choice never returns a zero-probability "
             "index; tie handling inside argpartition is not decided.",
        technique="AST idiom rules after local inlining (accepted forms enumerated) + ownership and "
                  "neutral-value facts from abstract-interpretation traces",
        ref="DESIGN.md section 3, C03"),
    "C16": dict(
        text="Static structural rules on simulator.py: the three window loops (offline chunks, online batches, "
             "online chunks of a batch) form an ordered exact cover (start affine in the counter or advanced by "
             "the window size, stop = start + size clamped by the row count, ceil(rows/size) windows, one pair of "
             "bounds for all per-row arrays); every path through default_evaluator's loop credits exactly one "
             "reward and uses the observed reward exactly when prediction == decision; the ordered split uses one "
             "boundary complementarily and the random split pairs unpacking targets with arguments; statistics "
             "are computed from same-origin arrays, records share one schema, predictions accumulate in order. "
             "The choice between neighbourhood and training statistic is made on containers, never on the truth "
             "value of the number. "
             "Decides the partition/crediting structure; numerical clauses are not decided. Found and guards the "
             "repaired non-advancing online chunk window.",
        note="Trusted: train_test_split returns (train, test) pairs in argument order; slices clamp. Numerical "
             "conservation laws (train + test = total, min <= mean <= max) are not decided.",
        technique="AST rule set with path enumeration over statement trees (window cover, exactly-once crediting, "
                  "operand/target pairing)",
        ref="DESIGN.md section 3, C16"),
    "C15": dict(
        text="Static sibling equivalence between library and simulator re-implementations (two live fragments of "
             "the tree): neighbour-selection expressions equal after expanding the distance cache through "
             "_calculate_distances_of_batch; the drivers compute distances for the rows they predict and share "
             "them only under the same metric; on the abstract traces of all (policy x Radius/KNearest/LSHNearest) "
             "configurations the per-row copy, seeding, fit operands and the sequence of generator draws up to the "
             "reported result coincide; the six LSH method pairs are equal under renaming; the wrappers built by "
             "_train_bandits hold the replaced implementor's constructor values and share rng, arms, lp; protocol "
             "order of run / online batches. Decides structural equality, not reported numbers. Found and guards "
             "the repaired cross-metric distance cache.",
        note="Trusted: cdist is a pure function; joblib order. Expectations of randomised policies and the "
             "statistics side products are outside the claim.",
        technique="sibling normal-form comparison (alpha renaming, local inlining, declared renaming table) + "
                  "comparison of abstract-interpretation traces of both implementations",
        ref="DESIGN.md section 3, C15"),
    "C08": dict(
        text="Static completeness/ownership analysis: every arm-keyed dictionary of the abstract object graph "
             "(incl. nested, per-cluster and per-arm-model state, all 55 configurations) is shown to be updated on "
             "the add_arm path and popped on the remove_arm path (collections of policies in loops over all of "
             "them); fields parallel to the arm list must be maintained; all policy objects reference the one list "
             "object MAB.arms, mutated only by the facade; predict_expectations returns fresh label-keyed "
             "dictionaries and predict returns labels; the single-vs-list unwrapping idioms and the per-row output "
             "assignment are checked over {no contexts, one row, many rows}. Decides the bookkeeping structure for "
             "every history; reports the stale no_nhood_prob_of_arm as a known finding.",
        note="Trusted: dict insertion order; MAB validation keeps arms duplicate-free; externals table.",
        technique="completeness check of effect summaries over abstract-interpretation traces and the abstract "
                  "heap (arm-keyed containers by label taint), object-identity check of the shared arm list, "
                  "idiom matching for result cardinality",
        ref="DESIGN.md section 3, C08"),
    "C14": dict(
        text="Static typestate analysis: abstract interpretation with a persistent abstract heap explores the "
             "protocol automaton {fit, partial_fit, add_arm(with/without binarizer), predict, predict_expectations} "
             "to a fixed point for ThompsonSampling alone, under all five neighbourhood policies and in the three "
             "simulator re-implementations. The binarizer field and the 'already binarized' flag of every Thompson "
             "object are tracked as constants read off the code; every reward array carries its observation "
             "classes with a conversion counter that a call of the binarizer field increments; at each update of "
             "the Beta counters the count must equal what the property specifies (0 for rewards that arrived "
             "without a binarizer, 1 otherwise). On the same traces the binarizer must receive decisions and "
             "rewards of the same rows, and no operation may read an attribute the implementor class never gets "
             "(AttributeError). Found and guards the repaired add_arm defect; TreeBandit's second "
             "conversion is a known finding (and masks further TreeBandit conversion faults).",
        note="Trusted: loops over arms/cluster policies/rows run at least once; the binarizer is only invoked "
             "through the binarizer field; externals table. What a user's binarizer returns is not decided.",
        technique="typestate / abstract interpretation with persistent heap over the public call protocol "
                  "(fixed point over abstract states)",
        ref="DESIGN.md section 3, C14"),
    "C17": dict(
        text="Static ordering analysis on the path structure of the abstract traces: in every facade entry point "
             "(all 55 configurations) no validation/conversion that can raise, and no column-sensitive implementor "
             "operation after a facade-level state change, is reachable after the first mutation; in every "
             "contextual implementor's partial_fit a column-compatibility requiring operation on the call's "
             "contexts dominates the first write (or the task updates a private copy and publishes it last, never "
             "mutating it afterwards); the row-aligned history arrays are published together; warm_start computes "
             "its mapping before writing. Decides 'exceptions that depend on argument validity or column "
             "compatibility are raised before any state changes'. Found and guards the repaired one-by-one history "
             "publish; TreeBandit's partial update is a known finding.",
        note="Trusted: externals table (which externals require/define the column count). Exceptions unrelated to "
             "column compatibility (singular matrices, k-means with too few rows) and rejected predict calls "
             "advancing the stream are outside the claim.",
        technique="path-sensitive ordering (must/may) walk over abstract-interpretation traces; ownership of "
                  "published private copies",
        ref="DESIGN.md section 3, C17"),
    "C01": dict(
        text="Static dependence / def-use analysis of the six context-free policies over fit, partial_fit, add_arm "
             "and remove_arm: fields are classified (computed) as accumulators or derived; a derived value never "
             "feeds on its own previous value without being rebuilt, every write to one of its inputs is followed "
             "by a batch-unconditional re-derivation, its transitive input set equals the documented one and is "
             "indexed by the same arm, rows are selected by one decisions == arm selector, neutral constants of "
             "__init__/fit/add_arm agree, accumulator updates are guarded only by selection size. This decides "
             "that each arm's statistic is a function of exactly that arm's observations since the last fit for "
             "every history; it does not decide the arithmetic of the formulas or sampling distributions. Found "
             "and now guards the repaired Popularity re-normalisation defect.",
        note="Trusted: C07's reset obligations (shared); externals table; CPython ast. Not decided: formulas as "
             "numbers, distributions of randomised outputs.",
        technique="def-use / dependence analysis on abstract-interpretation traces (accumulator vs derived "
                  "classification, self-dependence with in-function kill, staleness with batch/state guard "
                  "classification), AST selector and key discipline rules",
        ref="DESIGN.md section 3, C01"),
    "C06": dict(
        text="Static sibling comparison and def-use analysis: fit == reset o partial_fit in a normal form for the "
             "ten classes of the quantifier; every non-accumulating store on the partial_fit path (including "
             "private copies that are published) derives from accumulated state and never from the batch; derived "
             "purity and staleness on the partial_fit path (UCB1's N, Popularity's normalisation); tasks of arms "
             "absent from a chunk are no-ops or idempotent; LSH index offset read-before-append, passed and "
             "applied, planes untouched; first partial_fit delegates to fit; history appended old-then-new with "
             "matching operands. Decides the structural reasons why chunked and batch training build the same "
             "state for every chunking; floating-point rounding of linear policies is not decided.",
        note="Trusted: np.concatenate order; C07's kill analysis of fit; externals table. TreeBandit and scale=True "
             "excluded by the property.",
        technique="sibling normal-form comparison of fit/partial_fit ASTs + def-use analysis on "
                  "abstract-interpretation traces (accumulate form, batch taint through call sites)",
        ref="DESIGN.md section 3, C06"),
    "C05": dict(
        text="Static decomposition of the property: (1) row-locality of all 8 _predict_contexts bodies - every "
             "generator draw reachable from the per-row loop is traced, through deepcopy provenance and nested "
             "holders, to the abstract generator object it advances, which must have been created by "
             "create_rng(seeds[index]) in the same iteration; cross-row objects may only be mutated as output slot, "
             "generator rebinding, under a full reset (kill analysis on that fit call) or row-invariantly; (2) the "
             "4 row-partitioned Parallel sites slice consistently, pass the lower bound as offset, reduce in "
             "submission order and draw one seed per row before partitioning; (3) shared-memory task groups write "
             "only under their own key over duplicate-free iterables. Holds for every n_jobs, backend, partition "
             "and schedule because those do not appear in the decided clauses. Reports the two confirmed defects "
             "(TreeBandit and LinTS-under-neighbourhood draw from non-row generators) as known findings.",
        note="Trusted: joblib result order and sharedmem=threads; partition sizes sum to n (integer arithmetic, "
             "assumed); deterministic numerical kernels; externals table.",
        technique="abstract interpretation with heap provenance of generator objects (allocation stamps per loop "
                  "iteration, deepcopy origin chains), kill analysis for worker-local resets, AST rules for the "
                  "Parallel idiom, key-disjointness of shared-memory task writes",
        ref="DESIGN.md section 3, C05"),
    "C04": dict(
        text="Static exclusion of every source of run-to-run, process-to-process and instance-to-instance "
             "variation: who-may-call over resolved imports (no global RNG/time/uuid/id/hash/getpid; generators "
             "only from default_rng(seed) in _NumpyRNG), seeded-estimator check on the abstract traces (incl. "
             "random_state passed through **dict, decided by must-assigned keys), no iteration over label sets, and "
             "an alias analysis showing that no store in MAB.__init__ or any public entry point, in any of the "
             "55 configurations, reaches a module-global, class-level or mutable-default object. Decides the "
             "structural clause 'there is no shared or nondeterministic state to depend on'; found and now guards "
             "the repaired shared tree_parameters default.",
        note="Trusted: single-threaded numerical kernels (the property's own assumption); sklearn determinism "
             "given random_state; externals table; CPython ast.",
        technique="who-may-call / taint over resolved imports + ownership (GLOBAL region) alias analysis over "
                  "abstract-interpretation traces + must-assigned dict keys",
        ref="DESIGN.md section 3, C04"),
    "C18": dict(
        text="Static ownership/alias analysis: every argument of MAB.__init__ and of the public entry points is "
             "an abstract CALLER object; aliases are followed through calls, numpy/pandas views and field stores "
             "in all 55 configurations, and no in-place write may reach a CALLER object or a bandit field that "
             "may alias one; MAB.arms is shown to be a fresh copy; the validator and converter isinstance tables "
             "are compared and every converter branch is shown to return identity-on-C-contiguous / .values / "
             "np.asarray(order='C') and to end in raise. Estimators built with copy=False / copy_x=False count as "
             "writing into their operand; no container-specific converter branch may read an attribute that the "
             "implementor cannot have. Decides 'inputs cannot be modified' and 'every accepted "
             "container type is converted'; equality of numerical results across container types is not decided.",
        note="Trusted: externals table (views vs copies, mutators); pandas .values treated as a view; CPython ast.",
        technique="ownership/alias lattice (FRESH/BANDIT/CALLER/GLOBAL) over abstract-interpretation traces; "
                  "sibling table comparison of isinstance chains",
        ref="DESIGN.md section 3, C18"),
    "C07": dict(
        text="Static must-kill (reset completeness) analysis: for every implementor class in every configuration, "
             "the set W of bandit-state locations that any training, warm-start or prediction path may write is "
             "computed from the receiver-exact abstract traces, and MAB.fit's trace is walked with a MUST-killed set "
             "to show each location in W is reset on every path before fit reads or accumulates on it. Decides "
             "the structural clause 'nothing learned before fit can survive or influence it' for all histories; "
             "found and now guards the repaired LSHNearest stale-hash-table defect.",
        note="Trusted: sklearn estimators' fit re-initialises them; arm-keyed dicts have the current arms as keys "
             "(C08); externals table; CPython ast.",
        technique="kill/def-use analysis over abstract-interpretation traces (MUST-killed sets joined by "
                  "intersection, loops kill only when they range over all arms/keys/clusters), value-dead field "
                  "computation",
        ref="DESIGN.md section 3, C07"),
    "C10": dict(
        text="Static ownership/effect analysis: over all 55 policy configurations, every write reachable from "
             "predict/predict_expectations is shown to land on an object allocated inside the call (deepcopy, "
             "constructor, numpy allocation), a random stream or a value-dead field. This decides the structural "
             "clause 'prediction cannot write bandit state' for every input and history, which is what the "
             "behavioural property reduces to; it is not a behavioural test.",
        note="Trusted: CPython ast; externals table (sklearn predict/apply/transform, cdist and numpy pure "
             "functions are read-only); copy.deepcopy shares nothing mutable; defaultdict bucket materialisation "
             "is a no-op.",
        technique="abstract interpretation of the AST with an abstract heap: ownership (fresh/bandit/caller) of "
                  "every store target on the inlined call graph of the prediction entry points; value-dead field "
                  "computation",
        ref="DESIGN.md section 3, C10"),
}

PENDING_REASON = ("check not armed yet in this revision (static rule set under construction); see DESIGN.md for "
                  "the planned structural clause")


def main():
    props = [json.loads(l) for l in open(os.path.join(HERE, "properties.jsonl"))]
    checks, na = [], []
    for p in props:
        pid = p["id"]
        c = CLAIMS.get(pid)
        if c is None:
            na.append({"property_id": pid, "reason": PENDING_REASON})
            continue
        checks.append({
            "property_id": pid,
            "quick_cmd": "./check %s quick" % pid,
            "thorough_cmd": "./check %s thorough" % pid,
            "evidence_file": "/verif/evidence/%s.json" % pid,
            "replay_cmd_template": "./check %s --replay {path}" % pid,
            "engine": "mabstat",
            "level_claimed": {"category": "other", "text": c["text"], "design_ref": c["ref"]},
            "level_note": c["note"],
            "technique": c["technique"],
        })
    m = {
        "version": 1,
        "setup_cmd": "/venv/bin/python -m compileall -q mabstat",
        "hooks": {"guard": "FIDELITY_MABWISER_VERIF",
                  "enable": "none needed: the checks read /repo/mabwiser/*.py and never import or run it",
                  "baseline_off_cmd": "cd /repo && /venv/bin/python -m pytest -q -p no:cacheprovider --timeout=900",
                  "source_commits": [], "add_only": True},
        "engines": [{"name": "mabstat", "path": "/verif/mabstat",
                     "serves_properties": sorted(CLAIMS),
                     "kind_free_text": "repository-specific static analyser: ast program model (classes, C3 MRO, "
                                       "imports), abstract interpreter with abstract heap / aliasing / dependence "
                                       "producing trace trees per configuration and entry point, rule modules "
                                       "per property, self-test with seeded mutants and benign variants"}],
        "checks": checks,
        "not_applicable": na,
        "notes": "Technique family: static analysis only. Nothing under /repo is imported or executed by a check. "
                 "Exit 0 = all obligations hold (KNOWN-FINDING lines for listed defects), 1 = VIOLATION, "
                 "2 = ANALYSIS-ERROR (vanished anchor, undecided obligation, failed self-test).",
    }
    with open(os.path.join(HERE, "MANIFEST.json"), "w") as f:
        json.dump(m, f, indent=1)
    print("claimed:", sorted(CLAIMS), "not applicable:", len(na))


if __name__ == "__main__":
    main()
