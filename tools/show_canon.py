#!/venv/bin/python
"""tools/show_canon.py <refactoring dir | seeded dir | -> <Class.method | function> ...
prints the canonicalised form (the one the rules see) of the named functions, optionally under a stored patch"""
import ast
import os
import sys
sys.path.insert(0, os.path.dirname(os.path.dirname(os.path.abspath(__file__))))
from mabstat.model import Program                              # noqa: E402
from mabstat.selftest import apply_unified_diff              # noqa: E402

ROOT = os.path.dirname(os.path.dirname(os.path.abspath(__file__)))
which = sys.argv[1]
prog = Program.load()
if which != "-":
    for base in ("refactorings", "seeded", ""):
        p = os.path.join(ROOT, base, which, "patch.diff")
        if os.path.exists(p):
            break
    with open(p) as f:
        ov = apply_unified_diff({m.name: m.source for m in prog.modules.values()}, f.read())
    prog = Program.load(overrides=ov)
for q in sys.argv[2:]:
    for fn in prog.all_functions():
        if fn.qualname == q or fn.name == q:
            print("#", fn.qualname)
            print(ast.unparse(fn.node))
            print()
