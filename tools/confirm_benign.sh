#!/bin/sh
# tools/confirm_benign.sh <dir with patch.diff and equiv.py> : runs equiv.py on a scratch copy of /repo without and with
# the refactoring; both digests must be equal (the change is behaviour-preserving on the scenarios of equiv.py).
D=$(readlink -f "$1")
S=$(mktemp -d /tmp/confirmb.XXXXXX)
cp -r /repo/mabwiser "$S/"
mkdir -p "$S/_seed"; cp "$D/equiv.py" "$S/_seed/equiv.py"
cd "$S" || exit 2
a=$(OMP_NUM_THREADS=1 PYTHONPATH="$S" /venv/bin/python "$S/_seed/equiv.py" 2>/dev/null | tail -1)
patch -s -p1 < "$D/patch.diff" || { echo "patch does not apply"; cd /; rm -rf "$S"; exit 2; }
b=$(OMP_NUM_THREADS=1 PYTHONPATH="$S" /venv/bin/python "$S/_seed/equiv.py" 2>/dev/null | tail -1)
if [ -n "$a" ] && [ "$a" = "$b" ]; then echo "digests equal: $a"; rc=0; else echo "DIGESTS DIFFER: '$a' vs '$b'"; rc=1; fi
cd /; rm -rf "$S"; exit $rc
