#!/bin/sh
# tools/try_seed.sh <patch.diff> : apply a seeded change to a scratch copy of /repo's package (outside /repo and
# /verif), run every quick check against the copy (MABSTAT_REPO), show which checks report, remove the copy.
# The evidence files written by this run describe the scratch copy; re-run the checks afterwards to refresh them.
cd "$(dirname "$0")/.." || exit 2
P=$(readlink -f "$1")
S=$(mktemp -d /tmp/seedtest.XXXXXX)
cp -r /repo/mabwiser "$S/mabwiser"
( cd "$S" && patch -s -p1 < "$P" ) || { echo "patch does not apply"; rm -rf "$S"; exit 2; }
MABSTAT_REPO="$S" tools/run_all.sh quick | grep -v "rc=0"
for q in $(seq -w 1 20); do
  grep -A3 "^VIOLATION" .cache/runall/C$q.quick.out | grep "  rule" | cut -c1-240 | sort -u | head -3 | sed "s/^/C$q/"
done
rm -rf "$S"
