#!/bin/sh
# tools/try_seed.sh <patch.diff> : apply a seeded change to /repo, run every quick check, show which report, undo.
cd "$(dirname "$0")/.." || exit 2
P=$1
if [ -n "$(git -C /repo status --porcelain)" ]; then echo "/repo is not clean"; exit 2; fi
git -C /repo apply --3way "$P" >/dev/null 2>&1 || git -C /repo apply "$P" || { echo "patch does not apply"; exit 2; }
tools/run_all.sh quick | grep -v "rc=0"
for q in $(seq -w 1 20); do
  grep -A3 "^VIOLATION" .cache/runall/C$q.quick.out | grep "  rule" | cut -c1-240 | sort -u | head -3 | sed "s/^/C$q/"
done
git -C /repo reset -q --hard HEAD
