#!/bin/sh
# tools/check_pinned.sh [commit] : run every quick check against the package as it was at the pinned commit
# (default b9384dc, before any fix: commit), in a scratch copy under /tmp. Every defect recorded as "fixed" in
# known_findings.json must be reported again there (a fixed entry suppresses nothing).
cd "$(dirname "$0")/.." || exit 2
C=${1:-b9384dc}
S=$(mktemp -d /tmp/pinned.XXXXXX)
mkdir -p "$S/mabwiser"
for f in $(git -C /repo ls-tree --name-only "$C" mabwiser/); do git -C /repo show "$C:$f" > "$S/$f"; done
MABSTAT_REPO="$S" tools/run_all.sh quick | grep -v "rc=0"
for q in $(seq -w 1 20); do
  grep -A3 "^VIOLATION" .cache/runall/C$q.quick.out | grep "  rule" | cut -c1-200 | sort -u | head -6 | sed "s/^/C$q/"
done
rm -rf "$S"
