#!/bin/sh
# tools/seed_matrix.sh : for every stored seeded change, which quick checks report it (on a scratch copy of /repo)
cd "$(dirname "$0")/.." || exit 2
for d in seeded/*/; do
  id=$(basename "$d")
  printf "== %s\n" "$id"
  tools/try_seed.sh "$d/patch.diff" 2>&1 | grep -E "^C[0-9]+ +rule|rc=2|does not apply" | cut -c1-200
done
