#!/bin/sh
# tools/confirm_micro.sh : every small edit under refactorings/micro/ leaves the digest of its group's equiv.py unchanged
# (scratch copies under /tmp, removed afterwards; 8 jobs at a time)
cd "$(dirname "$0")/.." || exit 2
B=$(pwd)/refactorings/micro
one() {
  d=$1; m=$(basename $d | cut -d- -f1)
  S=$(mktemp -d /tmp/confmicro.XXXXXX)
  cp -r /repo/mabwiser "$S/"; mkdir -p "$S/_seed"; cp "$B/$m/equiv.py" "$S/_seed/equiv.py"
  ( cd "$S" && patch -s -p1 < "$d/patch.diff" ) || { echo "$(basename $d) PATCH-FAILS"; rm -rf "$S"; return; }
  got=$(cd "$S" && OMP_NUM_THREADS=1 PYTHONPATH="$S" /venv/bin/python "$S/_seed/equiv.py" 2>/dev/null | tail -1)
  echo "$(basename $d) $got"
  rm -rf "$S"
}
base() {
  m=$1
  S=$(mktemp -d /tmp/confmicro.XXXXXX)
  cp -r /repo/mabwiser "$S/"; mkdir -p "$S/_seed"; cp "$B/$m/equiv.py" "$S/_seed/equiv.py"
  got=$(cd "$S" && OMP_NUM_THREADS=1 PYTHONPATH="$S" /venv/bin/python "$S/_seed/equiv.py" 2>/dev/null | tail -1)
  echo "$m-base $got"
  rm -rf "$S"
}
n=0
for m in $(ls $B | grep -v -- -edit); do base $m & n=$((n+1)); [ $((n % 8)) -eq 0 ] && wait; done
for d in $B/*-edit*; do one $d & n=$((n+1)); [ $((n % 8)) -eq 0 ] && wait; done
wait
