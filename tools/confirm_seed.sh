#!/bin/sh
# tools/confirm_seed.sh <dir with patch.diff and demo.py> [test files...] : confirms a seeded change on a scratch copy
# of /repo (outside /repo and /verif): demo exits 0 without the change, 1 with it; the given test files pass with it.
D=$(readlink -f "$1"); shift
S=$(mktemp -d /tmp/confirm.XXXXXX)
cp -r /repo/mabwiser /repo/tests "$S/"
mkdir -p "$S/_seed"; cp "$D/demo.py" "$S/_seed/demo.py"     # demos may locate the library relative to themselves
cd "$S" || exit 2
OMP_NUM_THREADS=1 PYTHONPATH="$S" /venv/bin/python "$S/_seed/demo.py" > "$S/without.out" 2>&1; a=$?
patch -s -p1 < "$D/patch.diff" || { echo "patch does not apply"; rm -rf "$S"; exit 2; }
OMP_NUM_THREADS=1 PYTHONPATH="$S" /venv/bin/python "$S/_seed/demo.py" > "$S/with.out" 2>&1; b=$?
echo "demo without change exit=$a, with change exit=$b"
if [ $# -gt 0 ]; then
  OMP_NUM_THREADS=1 PYTHONPATH="$S" /venv/bin/python -m pytest -q -p no:cacheprovider "$@" 2>&1 | tail -1
fi
cd /; rm -rf "$S"
