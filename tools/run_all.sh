#!/bin/sh
# runs every check of a tier in parallel (16 jobs) and prints one line per property; exit 1 if any is non-zero
cd "$(dirname "$0")/.." || exit 2
TIER=${1:-quick}
mkdir -p .cache/runall
rc=0
for i in $(seq -w 1 20); do
  ( ./check C$i $TIER > .cache/runall/C$i.$TIER.out 2>&1; echo $? > .cache/runall/C$i.$TIER.rc ) &
done
wait
for i in $(seq -w 1 20); do
  r=$(cat .cache/runall/C$i.$TIER.rc)
  printf "C%s rc=%s  %s\n" "$i" "$r" "$(grep -m1 "^C$i $TIER\|ANALYSIS-ERROR" .cache/runall/C$i.$TIER.out | cut -c1-150)"
  [ "$r" != "0" ] && rc=1
done
exit $rc
