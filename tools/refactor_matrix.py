#!/venv/bin/python
"""tools/refactor_matrix.py [refactoring ids ...] [--props C01,C05] : applies every stored behaviour-preserving refactoring
(refactorings/<id>/patch.diff) in memory and runs the quick checks on it; every check must stay silent."""
import concurrent.futures as cf
import os
import sys

sys.path.insert(0, os.path.dirname(os.path.dirname(os.path.abspath(__file__))))
from mabstat.model import AnalysisError, Program            # noqa: E402
from mabstat.selftest import apply_unified_diff              # noqa: E402

BASE = os.path.join(os.path.dirname(os.path.dirname(os.path.abspath(__file__))), "refactorings")
for _a in sys.argv[1:]:
    if _a.startswith("--base="):        # any directory of <id>/patch.diff (e.g. seeded/ : which checks report what)
        BASE = os.path.abspath(_a.split("=", 1)[1])


def one(args):
    rid, pid = args
    from mabstat.cli import run_property
    from mabstat.report import load_known, match_known
    prog = Program.load()
    with open(os.path.join(BASE, rid, "patch.diff")) as f:
        ov = apply_unified_diff({m.name: m.source for m in prog.modules.values()}, f.read())
    if ov is None:
        return rid, pid, "PATCH", ["patch does not apply"]
    try:
        _, ctx = run_property(pid, "quick", 0, overrides=ov, write=False)
    except AnalysisError as e:
        return rid, pid, "ERROR", [str(e)[:300]]
    except Exception:
        import traceback
        return rid, pid, "CRASH", [traceback.format_exc()[-600:]]
    known = load_known()
    viol = [o for o in ctx.obligations.values() if o.status == "VIOLATED" and not match_known(o, known)]
    und = [o for o in ctx.obligations.values() if o.status == "UNDECIDED"]
    fl = [f for f in ctx.floors if f[2] < f[3]]
    st = "ok" if not (viol or und or fl) else "ALARM"
    return rid, pid, st, ["%s %s %s.%s: %s [%s]" % (o.status, o.rule, o.cls, o.method, o.detail[:int(os.environ.get("REFM_W", "160"))], o.construct[:70])
                          for o in (viol + und)[:6]] + [str(f) for f in fl[:2]]


if __name__ == "__main__":
    args = [a for a in sys.argv[1:] if not a.startswith("--")]
    props = ["C%02d" % i for i in range(1, 21)]
    for a in sys.argv[1:]:
        if a.startswith("--props"):
            props = a.split("=", 1)[1].split(",")
    import json
    rids = args or sorted(d for d in os.listdir(BASE) if os.path.isfile(os.path.join(BASE, d, "patch.diff")))
    expected = {}
    if os.path.exists(os.path.join(BASE, "expected.json")):
        with open(os.path.join(BASE, "expected.json")) as f:
            expected = json.load(f)
    jobs = [(r, p) for r in rids for p in props]
    bad = unexpected = 0
    with cf.ProcessPoolExecutor(16) as ex:
        for rid, pid, st, info in ex.map(one, jobs):
            exp = expected.get(rid, {}).get(pid)
            if st != "ok":
                bad += 1
                if exp is None:
                    unexpected += 1
                print(rid, pid, st, "" if exp is None else "(listed: %s)" % exp.get("kind"))
                for i in info:
                    print("     ", i)
            elif exp is not None:
                unexpected += 1
                print(rid, pid, "SILENT although listed in expected.json as", exp.get("kind"))
    print("%d of %d (refactoring, check) pairs are not silent; %d not as listed in expected.json" %
          (bad, len(jobs), unexpected))
    sys.exit(1 if unexpected else 0)
